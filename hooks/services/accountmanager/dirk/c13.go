package dirk

// Test-only constructor and probes for the C13 check (compiled in through the build overlay only).
// Nothing here changes behaviour: the constructor fills the fields New() fills, minus TLS credentials
// and endpoints, and pre-opens harness wallets in the map openWallet() consults first.

import (
	"context"
	"sort"

	"github.com/attestantio/go-eth2-client/spec/phase0"
	"github.com/attestantio/vouch/services/chaintime"
	"github.com/attestantio/vouch/services/validatorsmanager"
	"github.com/rs/zerolog"
	e2wtypes "github.com/wealdtech/go-eth2-wallet-types/v2"
)

// VerifNewService builds a dirk account manager that talks to the given already-open wallets instead
// of a Dirk server.  A wallet that is not in the map is opened the production way (dirk.Open), which
// fails at parameter validation (no monitor, no credentials, no endpoints) before any network access:
// that is the "wallet cannot be opened" outcome.  As in New(), s.accounts starts nil.
func VerifNewService(accountPaths []string, wallets map[string]e2wtypes.Wallet, validatorsManager validatorsmanager.Service, currentEpochProvider chaintime.Service, farFutureEpoch phase0.Epoch, processConcurrency int64) *Service {
	w := make(map[string]e2wtypes.Wallet, len(wallets))
	for name, wallet := range wallets {
		w[name] = wallet
	}
	return &Service{
		log:                  zerolog.Nop(),
		processConcurrency:   processConcurrency,
		accountPaths:         accountPaths,
		validatorsManager:    validatorsManager,
		farFutureEpoch:       farFutureEpoch,
		currentEpochProvider: currentEpochProvider,
		wallets:              w,
	}
}

// VerifSetWallet makes name resolve to the given open wallet; nil forgets it (the next open fails).
func (s *Service) VerifSetWallet(name string, wallet e2wtypes.Wallet) {
	s.walletsMutex.Lock()
	defer s.walletsMutex.Unlock()
	if wallet == nil {
		delete(s.wallets, name)
		return
	}
	s.wallets[name] = wallet
}

// VerifRefreshAccounts runs the unexported account refresh.
func (s *Service) VerifRefreshAccounts(ctx context.Context) { s.refreshAccounts(ctx) }

// VerifFetchAccountsForWallet compiles the configured specifiers and runs the unexported fetch for one
// wallet, selecting the regexes by wallet name exactly as refreshAccounts does.
func (s *Service) VerifFetchAccountsForWallet(ctx context.Context, wallet e2wtypes.Wallet) map[phase0.BLSPubKey]e2wtypes.Account {
	verificationRegexes := s.accountPathsToVerificationRegexes(s.accountPaths)
	return s.fetchAccountsForWallet(ctx, wallet, verificationRegexes[wallet.Name()])
}

// VerifRegexStrings reports the generated verification regexes (diagnostics in messages only).
func (s *Service) VerifRegexStrings() []string {
	var out []string
	byWallet := s.accountPathsToVerificationRegexes(s.accountPaths)
	names := make([]string, 0, len(byWallet))
	for name := range byWallet {
		names = append(names, name)
	}
	sort.Strings(names)
	for _, name := range names {
		for _, re := range byWallet[name] {
			out = append(out, re.String())
		}
	}
	return out
}

// VerifAccounts returns a copy of the known accounts.
func (s *Service) VerifAccounts() map[phase0.BLSPubKey]e2wtypes.Account {
	s.mutex.RLock()
	defer s.mutex.RUnlock()
	out := make(map[phase0.BLSPubKey]e2wtypes.Account, len(s.accounts))
	for k, v := range s.accounts {
		out[k] = v
	}
	return out
}
