package standard

import "github.com/attestantio/go-eth2-client/spec/phase0"

// VerifC20AttestedEpochs returns the epochs for which attested validators are remembered (overlay only).
func (s *Service) VerifC20AttestedEpochs() []phase0.Epoch {
	s.attestedMu.Lock()
	defer s.attestedMu.Unlock()
	out := make([]phase0.Epoch, 0, len(s.attested))
	for k := range s.attested {
		out = append(out, k)
	}
	return out
}
