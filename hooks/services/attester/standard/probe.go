package standard

import (
	"sort"

	"github.com/attestantio/go-eth2-client/spec/phase0"
)

// Hooks for the verification harness (compiled in through -overlay only).  Read-only probes; they do
// not change behaviour.

// VerifAttestedEpochs returns the epochs that currently have an entry in the attested map, ascending
// (no locking: call at quiescence only).
func (s *Service) VerifAttestedEpochs() []phase0.Epoch {
	out := make([]phase0.Epoch, 0, len(s.attested))
	for e := range s.attested {
		out = append(out, e)
	}
	sort.Slice(out, func(i, j int) bool { return out[i] < out[j] })
	return out
}

// VerifAttestedValidators returns the validator indices marked as attested for the epoch, ascending
// (no locking: call at quiescence only).
func (s *Service) VerifAttestedValidators(epoch phase0.Epoch) []phase0.ValidatorIndex {
	out := make([]phase0.ValidatorIndex, 0, len(s.attested[epoch]))
	for v := range s.attested[epoch] {
		out = append(out, v)
	}
	sort.Slice(out, func(i, j int) bool { return out[i] < out[j] })
	return out
}
