package standard

import (
	"context"

	"github.com/attestantio/vouch/services/blockrelay"
)

// Hooks for the verification harness (compiled in through -overlay only).  They expose unexported entry
// points and read-only probes; they do not change behaviour.

// VerifFetchExecutionConfig runs one configuration refresh, as the periodic job does.
func (s *Service) VerifFetchExecutionConfig(ctx context.Context) { s.fetchExecutionConfig(ctx) }

// VerifSubmitValidatorRegistrations runs one registration round, as the periodic job does.
func (s *Service) VerifSubmitValidatorRegistrations(ctx context.Context) {
	s.submitValidatorRegistrations(ctx)
}

// VerifExecutionConfig returns the configuration in force (no locking: call at quiescence only).
func (s *Service) VerifExecutionConfig() blockrelay.ExecutionConfigurator { return s.executionConfig }

// VerifBidCacheKeys returns the slot keys of the bid cache.
func (s *Service) VerifBidCacheKeys() []string {
	out := make([]string, 0, len(s.builderBidsCache))
	for k := range s.builderBidsCache {
		out = append(out, k)
	}
	return out
}

// VerifRegistrationCacheSizes returns the sizes of the signed / latest registration caches.
func (s *Service) VerifRegistrationCacheSizes() (int, int) {
	return len(s.signedValidatorRegistrations), len(s.latestValidatorRegistrations)
}
