package standard

import "github.com/attestantio/go-eth2-client/spec/phase0"

// VerifC20SlotDataRecordSlots returns the slots for which verification data is retained (overlay only).
func (s *Service) VerifC20SlotDataRecordSlots() []phase0.Slot {
	s.slotDataRecordsMu.Lock()
	defer s.slotDataRecordsMu.Unlock()
	out := make([]phase0.Slot, 0, len(s.slotDataRecords))
	for k := range s.slotDataRecords {
		out = append(out, k)
	}
	return out
}
