package util

import (
	builder "github.com/attestantio/go-builder-client"
)

// VerifSetBuilderClient injects a relay stand-in under the given address (harness only).
func VerifSetBuilderClient(address string, client builder.Service) {
	buildersMu.Lock()
	defer buildersMu.Unlock()
	if builders == nil {
		builders = make(map[string]builder.Service)
	}
	builders[address] = client
}

// VerifResetBuilderClients forgets all builder clients (harness only).  It is called at the start of an execution,
// before anything else runs: the package-level lock is replaced rather than taken, so that an execution which ended
// with the lock held (a finding, reported by that execution's oracle) cannot block the next one.
func VerifResetBuilderClients() {
	verifZero(&buildersMu)
	builders = nil
}

func verifZero[T any](p *T) {
	var z T
	*p = z
}
