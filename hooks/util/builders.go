package util

import (
	builder "github.com/attestantio/go-builder-client"
)

// VerifSetBuilderClient injects a relay stand-in under the given address (harness only).
func VerifSetBuilderClient(address string, client builder.Service) {
	buildersMu.Lock()
	defer buildersMu.Unlock()
	if builders == nil {
		builders = make(map[string]builder.Service)
	}
	builders[address] = client
}

// VerifResetBuilderClients forgets all builder clients (harness only).
func VerifResetBuilderClients() {
	buildersMu.Lock()
	defer buildersMu.Unlock()
	builders = nil
}
