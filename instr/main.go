// Command verifinstr rewrites every non-test Go file of the vouch module so that its concurrency,
// time, context and map-iteration behaviour is owned by the controlled runtime (verifmc/*).
//
//	verifinstr -repo /repo -out <dir>
//
// writes the rewritten files under <dir>/src/<relative path> and <dir>/overlay.json, which maps the
// original paths to the rewritten ones, the runtime sources to /repo/verifmc/... and in-package hook
// files to /repo/<pkg>/zz_verif_hooks*.go.  /repo itself is never written to.
package main

import (
	"bytes"
	"encoding/json"
	"flag"
	"fmt"
	"go/ast"
	"go/format"
	"go/token"
	"go/types"
	"os"
	"path/filepath"
	"sort"
	"strconv"
	"strings"

	"golang.org/x/tools/go/ast/astutil"
	"golang.org/x/tools/go/packages"
)

const base = "github.com/attestantio/vouch/verifmc/"
const mcAlias = "verifmc"

var shim = map[string][2]string{
	"sync":                           {"sync", base + "msync"},
	"sync/atomic":                    {"atomic", base + "matomic"},
	"go.uber.org/atomic":             {"atomic", base + "matomic"},
	"github.com/sasha-s/go-deadlock": {"deadlock", base + "msync"},
	"time":                           {"time", base + "mtime"},
	"context":                        {"context", base + "mcontext"},
	"golang.org/x/sync/semaphore":    {"semaphore", base + "msem"},
	"golang.org/x/sync/errgroup":     {"errgroup", base + "merrgroup"},
	"golang.org/x/sync/singleflight": {"singleflight", base + "msingleflight"},
	"math/rand":                      {"rand", base + "mrand"},
	// the REST daemon of the block relay would open a TCP listener per constructed service
	"github.com/attestantio/go-block-relay/services/daemon/rest": {"restdaemon", base + "stubs/restdaemon"},
}

type inst struct {
	fset *token.FileSet
	info *types.Info
	used bool
	n    int
	file string
}

func ident(s string) *ast.Ident { return ast.NewIdent(s) }

func (in *inst) mc(fn string, args ...ast.Expr) *ast.CallExpr {
	in.used = true
	return &ast.CallExpr{Fun: &ast.SelectorExpr{X: ident(mcAlias), Sel: ident(fn)}, Args: args}
}

func (in *inst) tmp(p string) string {
	in.n++
	return fmt.Sprintf("__mc_%s%d", p, in.n)
}

func define(name string, e ast.Expr) ast.Stmt {
	return &ast.AssignStmt{Lhs: []ast.Expr{ident(name)}, Tok: token.DEFINE, Rhs: []ast.Expr{e}}
}

func (in *inst) pos(n ast.Node) string {
	p := in.fset.Position(n.Pos())
	return fmt.Sprintf("%s:%d", in.file, p.Line)
}

// pure reports whether e may be evaluated twice (identifier or selector chain).
func pure(e ast.Expr) bool {
	switch x := e.(type) {
	case *ast.Ident:
		return true
	case *ast.SelectorExpr:
		return pure(x.X)
	case *ast.ParenExpr:
		return pure(x.X)
	case *ast.StarExpr:
		return pure(x.X)
	}
	return false
}

func isRecv(e ast.Expr) (*ast.UnaryExpr, bool) {
	for {
		p, ok := e.(*ast.ParenExpr)
		if !ok {
			break
		}
		e = p.X
	}
	u, ok := e.(*ast.UnaryExpr)
	if ok && u.Op == token.ARROW {
		return u, true
	}
	return nil, false
}

// apply rewrites a subtree.
func (in *inst) apply(n ast.Node) ast.Node {
	if n == nil {
		return nil
	}
	return astutil.Apply(n, in.pre, in.post)
}

func (in *inst) expr(e ast.Expr) ast.Expr {
	if e == nil {
		return nil
	}
	return in.apply(e).(ast.Expr)
}

func (in *inst) stmts(l []ast.Stmt) []ast.Stmt {
	out := make([]ast.Stmt, 0, len(l))
	for _, s := range l {
		out = append(out, in.apply(s).(ast.Stmt))
	}
	return out
}

func (in *inst) pre(c *astutil.Cursor) bool {
	switch x := c.Node().(type) {
	case *ast.GoStmt:
		c.Replace(in.goStmt(x))
		return false
	case *ast.SelectStmt:
		c.Replace(in.selectStmt(x, nil))
		return false
	case *ast.LabeledStmt:
		if s, ok := x.Stmt.(*ast.SelectStmt); ok {
			c.Replace(in.selectStmt(s, x.Label))
			return false
		}
		if r, ok := x.Stmt.(*ast.RangeStmt); ok {
			if rep := in.rangeStmt(r, x.Label); rep != nil {
				c.Replace(rep)
				return false
			}
		}
	case *ast.RangeStmt:
		if rep := in.rangeStmt(x, nil); rep != nil {
			c.Replace(rep)
			return false
		}
	case *ast.AssignStmt:
		if len(x.Lhs) == 2 && len(x.Rhs) == 1 {
			if u, ok := isRecv(x.Rhs[0]); ok {
				for i := range x.Lhs {
					x.Lhs[i] = in.expr(x.Lhs[i])
				}
				x.Rhs[0] = in.mc("Recv2", in.expr(u.X))
				return false
			}
		}
	case *ast.ValueSpec:
		if len(x.Names) == 2 && len(x.Values) == 1 {
			if u, ok := isRecv(x.Values[0]); ok {
				x.Values[0] = in.mc("Recv2", in.expr(u.X))
				return false
			}
		}
	}
	return true
}

func (in *inst) post(c *astutil.Cursor) bool {
	switch x := c.Node().(type) {
	case *ast.UnaryExpr:
		if x.Op == token.ARROW {
			c.Replace(in.mc("Recv", x.X))
		}
	case *ast.SendStmt:
		c.Replace(&ast.ExprStmt{X: in.mc("Send", x.Chan, x.Value)})
	case *ast.CallExpr:
		if id, ok := x.Fun.(*ast.Ident); ok && id.Name == "close" && len(x.Args) == 1 {
			if in.info == nil || in.info.Uses[id] == nil || in.info.Uses[id] == types.Universe.Lookup("close") {
				c.Replace(in.mc("Close", x.Args[0]))
			}
		}
	}
	return true
}

// go f(a, b)  =>  verifmc.Go(func() func() { a0, b0 := a, b; return func() { f(a0, b0) } }())
func (in *inst) goStmt(x *ast.GoStmt) ast.Stmt {
	call := x.Call
	call.Fun = in.expr(call.Fun)
	if fl, ok := call.Fun.(*ast.FuncLit); ok && len(call.Args) == 0 && (fl.Type.Params == nil || len(fl.Type.Params.List) == 0) && fl.Type.Results == nil {
		return &ast.ExprStmt{X: in.mc("Go", fl)}
	}
	var pre []ast.Stmt
	ellipsis := call.Ellipsis
	for i, a := range call.Args {
		n := in.tmp("a")
		pre = append(pre, define(n, in.expr(a)))
		call.Args[i] = ident(n)
	}
	call.Ellipsis = ellipsis
	inner := &ast.FuncLit{Type: &ast.FuncType{Params: &ast.FieldList{}}, Body: &ast.BlockStmt{List: []ast.Stmt{&ast.ExprStmt{X: call}}}}
	outer := &ast.FuncLit{
		Type: &ast.FuncType{Params: &ast.FieldList{}, Results: &ast.FieldList{List: []*ast.Field{{Type: &ast.FuncType{Params: &ast.FieldList{}}}}}},
		Body: &ast.BlockStmt{List: append(pre, &ast.ReturnStmt{Results: []ast.Expr{inner}})},
	}
	return &ast.ExprStmt{X: in.mc("Go", &ast.CallExpr{Fun: outer})}
}

func (in *inst) selectStmt(x *ast.SelectStmt, label *ast.Ident) ast.Stmt {
	selName := in.tmp("sel")
	var pre []ast.Stmt
	var cases []ast.Expr
	hasDefault := "false"
	sw := &ast.SwitchStmt{Body: &ast.BlockStmt{}}
	idx := 0
	for _, c := range x.Body.List {
		cc := c.(*ast.CommClause)
		if cc.Comm == nil {
			hasDefault = "true"
			sw.Body.List = append(sw.Body.List, &ast.CaseClause{List: nil, Body: in.stmts(cc.Body)})
			continue
		}
		chName := in.tmp("c")
		var recvFrom ast.Expr
		var assign *ast.AssignStmt
		var head []ast.Stmt
		switch cm := cc.Comm.(type) {
		case *ast.SendStmt:
			vName := in.tmp("v")
			pre = append(pre, define(chName, in.expr(cm.Chan)), define(vName, in.expr(cm.Value)))
			cases = append(cases, in.mc("SendCase", ident(chName), ident(vName)))
		case *ast.ExprStmt:
			u, ok := isRecv(cm.X)
			if !ok {
				panic(in.pos(cm) + ": unexpected select comm expression")
			}
			recvFrom = u.X
		case *ast.AssignStmt:
			u, ok := isRecv(cm.Rhs[0])
			if !ok {
				panic(in.pos(cm) + ": unexpected select comm assignment")
			}
			recvFrom = u.X
			assign = cm
		}
		if recvFrom != nil {
			pre = append(pre, define(chName, in.expr(recvFrom)))
			cases = append(cases, in.mc("RecvCase", ident(chName)))
			if assign != nil {
				fn := "Got"
				if len(assign.Lhs) == 2 {
					fn = "Got2"
				}
				head = append(head, &ast.AssignStmt{Lhs: assign.Lhs, Tok: assign.Tok, Rhs: []ast.Expr{in.mc(fn, ident(chName), ident(selName))}})
				if assign.Tok == token.DEFINE {
					// avoid "declared and not used" when the body ignores a variable
					for _, l := range assign.Lhs {
						if id, ok := l.(*ast.Ident); ok && id.Name != "_" {
							head = append(head, &ast.AssignStmt{Lhs: []ast.Expr{ident("_")}, Tok: token.ASSIGN, Rhs: []ast.Expr{ident(id.Name)}})
						}
					}
				}
			}
		}
		body := append(head, in.stmts(cc.Body)...)
		sw.Body.List = append(sw.Body.List, &ast.CaseClause{List: []ast.Expr{&ast.BasicLit{Kind: token.INT, Value: strconv.Itoa(idx)}}, Body: body})
		idx++
	}
	if hasDefault == "false" {
		sw.Body.List = append(sw.Body.List, &ast.CaseClause{List: nil, Body: []ast.Stmt{&ast.ExprStmt{X: in.mc("BadSelect")}, &ast.ExprStmt{X: &ast.CallExpr{Fun: ident("panic"), Args: []ast.Expr{&ast.BasicLit{Kind: token.STRING, Value: `"unreachable"`}}}}}})
	} else {
		// the default arm is index -1; an unwinding goroutine gets -2
		sw.Body.List = append(sw.Body.List, &ast.CaseClause{List: []ast.Expr{&ast.UnaryExpr{Op: token.SUB, X: &ast.BasicLit{Kind: token.INT, Value: "2"}}}, Body: []ast.Stmt{&ast.ExprStmt{X: in.mc("BadSelect")}}})
	}
	args := append([]ast.Expr{ident(hasDefault)}, cases...)
	sw.Init = define(selName, in.mc("Select", args...))
	sw.Tag = &ast.SelectorExpr{X: ident(selName), Sel: ident("Index")}
	var s ast.Stmt = sw
	if label != nil {
		s = &ast.LabeledStmt{Label: label, Stmt: sw}
	}
	if len(pre) == 0 {
		return s
	}
	return &ast.BlockStmt{List: append(pre, s)}
}

func (in *inst) rangeStmt(x *ast.RangeStmt, label *ast.Ident) ast.Stmt {
	if in.info == nil {
		return nil
	}
	t := in.info.TypeOf(x.X)
	if t == nil {
		return nil
	}
	wrap := func(pre []ast.Stmt, loop ast.Stmt) ast.Stmt {
		if label != nil {
			loop = &ast.LabeledStmt{Label: label, Stmt: loop}
		}
		if len(pre) == 0 {
			return loop
		}
		return &ast.BlockStmt{List: append(pre, loop)}
	}
	isBlank := func(e ast.Expr) bool {
		if e == nil {
			return true
		}
		id, ok := e.(*ast.Ident)
		return ok && id.Name == "_"
	}
	switch t.Underlying().(type) {
	case *types.Map:
		var pre []ast.Stmt
		m := in.expr(x.X)
		if !pure(m) {
			n := in.tmp("m")
			pre = append(pre, define(n, m))
			m = ident(n)
		}
		body := in.stmts(x.Body.List)
		keys := in.mc("SortedKeys", m)
		if isBlank(x.Key) && isBlank(x.Value) {
			return wrap(pre, &ast.RangeStmt{Key: nil, Tok: token.ILLEGAL, X: keys, Body: &ast.BlockStmt{List: body}})
		}
		var keyExpr ast.Expr = x.Key
		tok := x.Tok
		var head []ast.Stmt
		if isBlank(x.Key) {
			keyExpr = ident(in.tmp("k"))
			head = nil
		}
		okName := in.tmp("ok")
		if isBlank(x.Value) {
			head = append(head, &ast.AssignStmt{Lhs: []ast.Expr{ident("_"), ident(okName)}, Tok: token.DEFINE, Rhs: []ast.Expr{&ast.IndexExpr{X: m, Index: keyExpr}}})
		} else if tok == token.DEFINE {
			head = append(head, &ast.AssignStmt{Lhs: []ast.Expr{x.Value, ident(okName)}, Tok: token.DEFINE, Rhs: []ast.Expr{&ast.IndexExpr{X: m, Index: keyExpr}}})
		} else {
			head = append(head, &ast.DeclStmt{Decl: &ast.GenDecl{Tok: token.VAR, Specs: []ast.Spec{&ast.ValueSpec{Names: []*ast.Ident{ident(okName)}, Type: ident("bool")}}}},
				&ast.AssignStmt{Lhs: []ast.Expr{x.Value, ident(okName)}, Tok: token.ASSIGN, Rhs: []ast.Expr{&ast.IndexExpr{X: m, Index: keyExpr}}})
		}
		head = append(head, &ast.IfStmt{Cond: &ast.UnaryExpr{Op: token.NOT, X: ident(okName)}, Body: &ast.BlockStmt{List: []ast.Stmt{&ast.BranchStmt{Tok: token.CONTINUE}}}})
		ktok := tok
		if isBlank(x.Key) {
			ktok = token.DEFINE
		}
		loop := &ast.RangeStmt{Key: ident("_"), Value: keyExpr, Tok: ktok, X: keys, Body: &ast.BlockStmt{List: append(head, body...)}}
		return wrap(pre, loop)
	case *types.Chan:
		var pre []ast.Stmt
		ch := in.expr(x.X)
		if !pure(ch) {
			n := in.tmp("ch")
			pre = append(pre, define(n, ch))
			ch = ident(n)
		}
		body := in.stmts(x.Body.List)
		okName := in.tmp("ok")
		var head []ast.Stmt
		if isBlank(x.Key) {
			head = append(head, &ast.AssignStmt{Lhs: []ast.Expr{ident("_"), ident(okName)}, Tok: token.DEFINE, Rhs: []ast.Expr{in.mc("Recv2", ch)}})
		} else if x.Tok == token.DEFINE {
			head = append(head, &ast.AssignStmt{Lhs: []ast.Expr{x.Key, ident(okName)}, Tok: token.DEFINE, Rhs: []ast.Expr{in.mc("Recv2", ch)}})
		} else {
			head = append(head, &ast.DeclStmt{Decl: &ast.GenDecl{Tok: token.VAR, Specs: []ast.Spec{&ast.ValueSpec{Names: []*ast.Ident{ident(okName)}, Type: ident("bool")}}}},
				&ast.AssignStmt{Lhs: []ast.Expr{x.Key, ident(okName)}, Tok: token.ASSIGN, Rhs: []ast.Expr{in.mc("Recv2", ch)}})
		}
		head = append(head, &ast.IfStmt{Cond: &ast.UnaryExpr{Op: token.NOT, X: ident(okName)}, Body: &ast.BlockStmt{List: []ast.Stmt{&ast.BranchStmt{Tok: token.BREAK}}}})
		loop := &ast.ForStmt{Body: &ast.BlockStmt{List: append(head, body...)}}
		return wrap(pre, loop)
	}
	return nil
}

func (in *inst) file0(f *ast.File) bool {
	changed := false
	for _, im := range f.Imports {
		p, _ := strconv.Unquote(im.Path.Value)
		if s, ok := shim[p]; ok {
			if im.Name == nil {
				im.Name = ident(s[0])
			}
			im.Path.Value = strconv.Quote(s[1])
			changed = true
		}
	}
	for i, d := range f.Decls {
		f.Decls[i] = in.apply(d).(ast.Decl)
	}
	if in.used {
		changed = true
		spec := &ast.ImportSpec{Name: ident(mcAlias), Path: &ast.BasicLit{Kind: token.STRING, Value: strconv.Quote(base + "mc")}}
		added := false
		for _, d := range f.Decls {
			if gd, ok := d.(*ast.GenDecl); ok && gd.Tok == token.IMPORT {
				gd.Specs = append(gd.Specs, spec)
				if !gd.Lparen.IsValid() {
					gd.Lparen = gd.Pos()
					gd.Rparen = gd.End()
				}
				added = true
				break
			}
		}
		if !added {
			f.Decls = append([]ast.Decl{&ast.GenDecl{Tok: token.IMPORT, Specs: []ast.Spec{spec}}}, f.Decls...)
		}
	}
	return changed
}

func main() {
	repo := flag.String("repo", "/repo", "vouch tree")
	out := flag.String("out", "", "output directory")
	mcdir := flag.String("mc", "/verif/mc", "runtime sources")
	hooks := flag.String("hooks", "/verif/hooks", "in-package hook files")
	flag.Parse()
	if *out == "" {
		fmt.Fprintln(os.Stderr, "need -out")
		os.Exit(2)
	}
	cfg := &packages.Config{
		Mode:  packages.NeedName | packages.NeedFiles | packages.NeedCompiledGoFiles | packages.NeedSyntax | packages.NeedTypes | packages.NeedTypesInfo | packages.NeedImports,
		Dir:   *repo,
		Env:   append(os.Environ(), "GOFLAGS=-mod=mod", "GOPROXY=off", "GOSUMDB=off", "GOTOOLCHAIN=local"),
		Tests: false,
	}
	pkgs, err := packages.Load(cfg, "./...")
	if err != nil {
		fmt.Fprintln(os.Stderr, "load:", err)
		os.Exit(2)
	}
	bad := 0
	packages.Visit(pkgs, nil, func(p *packages.Package) {
		for _, e := range p.Errors {
			fmt.Fprintln(os.Stderr, "package error:", e)
			bad++
		}
	})
	if bad > 0 {
		os.Exit(2)
	}
	overlay := map[string]string{}
	nfiles, nchanged := 0, 0
	sort.Slice(pkgs, func(i, j int) bool { return pkgs[i].PkgPath < pkgs[j].PkgPath })
	for _, p := range pkgs {
		for i, f := range p.Syntax {
			path := p.CompiledGoFiles[i]
			rel, err := filepath.Rel(*repo, path)
			if err != nil || strings.HasPrefix(rel, "..") {
				continue
			}
			nfiles++
			in := &inst{fset: p.Fset, info: p.TypesInfo, file: rel}
			// keep only comments that precede the package clause (build constraints)
			var keep []*ast.CommentGroup
			for _, cg := range f.Comments {
				if cg.End() < f.Package {
					keep = append(keep, cg)
				}
			}
			f.Comments = keep
			f.Doc = nil
			if !in.file0(f) {
				continue
			}
			nchanged++
			var buf bytes.Buffer
			if err := format.Node(&buf, p.Fset, f); err != nil {
				fmt.Fprintf(os.Stderr, "%s: format: %v\n", rel, err)
				os.Exit(2)
			}
			dst := filepath.Join(*out, "src", rel)
			if err := os.MkdirAll(filepath.Dir(dst), 0o755); err != nil {
				panic(err)
			}
			if err := os.WriteFile(dst, buf.Bytes(), 0o644); err != nil {
				panic(err)
			}
			overlay[path] = dst
		}
	}
	// runtime packages
	filepath.Walk(*mcdir, func(p string, fi os.FileInfo, err error) error {
		if err == nil && !fi.IsDir() && strings.HasSuffix(p, ".go") {
			rel, _ := filepath.Rel(*mcdir, p)
			overlay[filepath.Join(*repo, "verifmc", rel)] = p
		}
		return nil
	})
	// hooks: /verif/hooks/<pkg path>/<name>.go -> /repo/<pkg path>/zz_verif_<name>.go
	filepath.Walk(*hooks, func(p string, fi os.FileInfo, err error) error {
		if err == nil && !fi.IsDir() && strings.HasSuffix(p, ".go") {
			rel, _ := filepath.Rel(*hooks, p)
			overlay[filepath.Join(*repo, filepath.Dir(rel), "zz_verif_"+filepath.Base(rel))] = p
		}
		return nil
	})
	js, _ := json.MarshalIndent(map[string]any{"Replace": overlay}, "", " ")
	if err := os.MkdirAll(*out, 0o755); err != nil {
		panic(err)
	}
	if err := os.WriteFile(filepath.Join(*out, "overlay.json"), js, 0o644); err != nil {
		panic(err)
	}
	fmt.Printf("instrumented %d of %d files\n", nchanged, nfiles)
}
